import warnings; warnings.filterwarnings("ignore")
import random, math
from soundevent import data
from soundevent.evaluation import compute_affinity, match_geometries
random.seed(1)
mx=0; bad=None; n=0
for i in range(3000):
    t=random.uniform(0,10); f=random.uniform(0,20000)
    pts=[[t+random.uniform(0,1), f+random.uniform(0,3000)] for _ in range(random.randint(2,5))]
    g=random.choice([data.LineString(coordinates=pts), data.MultiPoint(coordinates=pts), data.Point(coordinates=pts[0]),
        data.BoundingBox(coordinates=[t,f,t+random.uniform(0.001,1),f+random.uniform(1,3000)])])
    a=compute_affinity(g,g)
    if a>1: n+=1
    if a>mx: mx=a; bad=g
print("max self affinity", repr(mx), n, bad)
# symmetric?
asym=0
for i in range(2000):
    def rb():
        t=random.uniform(0,2); f=random.uniform(0,5000)
        return data.BoundingBox(coordinates=[t,f,t+random.uniform(0.001,1),f+random.uniform(1,3000)])
    def rl():
        t=random.uniform(0,2); f=random.uniform(0,5000)
        return data.LineString(coordinates=[[t+random.uniform(0,1), f+random.uniform(0,3000)] for _ in range(3)])
    a,b=random.choice([rb,rl])(),random.choice([rb,rl])()
    x,y=compute_affinity(a,b),compute_affinity(b,a)
    if x!=y: asym+=1; ex=(x,y)
print("asym", asym, ex if asym else None)
# far apart
b1=data.BoundingBox(coordinates=[0,100,1,200]); b2=data.BoundingBox(coordinates=[5,100,6,200])
print(list(match_geometries([b1],[b2])))
print(list(match_geometries([],[b2])), list(match_geometries([b1],[])), list(match_geometries([],[])))
