import warnings; warnings.filterwarnings("ignore")
import numpy as np, itertools
from rasterio import features
import shapely
from shapely import geometry
bad=0; tot=0
H,W=5,6
for x0,x1 in itertools.combinations_with_replacement(range(W+1),2):
  for y0,y1 in itertools.combinations_with_replacement(range(H+1),2):
    for at in [False, True]:
        g=geometry.box(x0,y0,x1,y1)
        try: r=features.rasterize([(g,1)],(H,W),fill=0,all_touched=at,dtype=np.float32)
        except Exception as e: r=None; err=str(e)[:60]
        exp=np.zeros((H,W),np.float32)
        if not at: exp[y0:y1,x0:x1]=1
        tot+=1
        if r is None or (not at and not (r==exp).all()):
            bad+=1
            if bad<6: print("box",(x0,y0,x1,y1),at, "ERR" if r is None else r, )
        if at and r is not None:
            # all touched superset
            if not (r>=exp0).all() if (exp0:=np.where(np.zeros((H,W))==0,0,0)) is None else False: pass
print("bad",bad,"of",tot)
# show all_touched for a degenerate and normal box
print(features.rasterize([(geometry.box(1,1,1,3),1)],(H,W),all_touched=True))
print(features.rasterize([(geometry.box(1,1,3,3),1)],(H,W),all_touched=True))
# empty geometry list
try: print(features.rasterize([],(H,W),fill=7).sum())
except Exception as e: print("empty list EXC", type(e).__name__, e)
