import warnings; warnings.filterwarnings("ignore")
import numpy as np, xarray as xr, random
from soundevent import arrays
from soundevent.arrays import operations as ops
random.seed(0)
def mk(start, step, n, attr=True):
    coords = start + step*np.arange(n)
    v = arrays.create_time_dim_from_array(coords, step=step if attr else None)
    return xr.DataArray(np.arange(1,n+1,dtype=float), dims=["time"], coords={"time": v})
# extend_dim: lattice points inside requested [start, stop)
bad=0; tot=0; exs=[]
for step in [0.5, 0.25, 1.0, 0.1, 0.01, 1/3]:
  for n in [1,2,5,12]:
    for s0 in [0.0, 2.0, 0.3]:
      a=mk(s0,step,n)
      last=s0+step*(n-1)
      for kl in [0,1,3]:
        for kr in [0,1,4]:
          for (lc,rc) in [(True,False),(True,True),(False,False),(False,True)]:
            start=s0-kl*step; stop=last+kr*step
            if (not lc and kl==0) or (not rc and kr==0): continue
            tot+=1
            try:
                r=ops.extend_dim(a,"time",start=start,stop=stop,left_closed=lc,right_closed=rc)
            except Exception as e:
                bad+=1; exs.append((step,n,s0,kl,kr,lc,rc,"EXC "+type(e).__name__+str(e)[:60])); continue
            c=r.time.values
            # expected lattice points s0 + k*step inside interval
            ks=[k for k in range(-kl-2, n+kr+2) if ((s0+k*step>start-1e-9) if lc else (s0+k*step>start+1e-9)) and ((s0+k*step<stop+1e-9) if rc else (s0+k*step<stop-1e-9))]
            exp=np.array([s0+k*step for k in ks])
            ok = len(c)==len(exp) and np.allclose(c,exp,atol=1e-9)
            if ok:
                # data on coords
                for k,val in zip(ks, r.values):
                    if 0<=k<n:
                        if val!=k+1: ok=False
                    elif val!=0: ok=False
            if not ok: bad+=1; exs.append((step,n,s0,kl,kr,lc,rc,len(c),len(exp)))
print("extend_dim bad", bad, tot); print(exs[:12])
