import warnings; warnings.filterwarnings("ignore")
from soundevent import data
from soundevent.evaluation import sound_event_detection, sound_event_classification, clip_classification, clip_multilabel_classification
rec = data.Recording(path="/a/b.wav", duration=100, channels=1, samplerate=8000)
T=data.term_from_key
def run(nv, nclips, fn):
    tags=[data.Tag(term=T("sp"), value=str(v)) for v in range(nv)]
    anns=[];preds=[]
    for c in range(nclips):
        clip=data.Clip(recording=rec,start_time=c,end_time=c+1)
        tt=[tags[c%nv]] if (c%3!=2) else []
        s=data.SoundEvent(recording=rec, geometry=data.BoundingBox(coordinates=[c,100,c+.5,200]))
        anns.append(data.ClipAnnotation(clip=clip,tags=tt, sound_events=[data.SoundEventAnnotation(sound_event=s,tags=tt)] if fn in (sound_event_detection,sound_event_classification) else []))
        pt=[data.PredictedTag(tag=t,score=round(1/(nv+1),3)) for t in tags]
        preds.append(data.ClipPrediction(clip=clip,tags=pt, sound_events=[data.SoundEventPrediction(sound_event=s,tags=pt)] if fn in (sound_event_detection,sound_event_classification) else []))
    try:
        ev=fn(preds,anns,tags); return [(m.term.label, round(m.value,4)) for m in ev.metrics], round(ev.score,4)
    except Exception as e: return "EXC "+type(e).__name__+" "+str(e)[:150].replace("\n"," ")
for fn in [clip_classification, clip_multilabel_classification, sound_event_classification, sound_event_detection]:
    for nv in [1,2,3,4]:
        for nc in [1,2,5]:
            print(fn.__name__, nv, nc, run(nv,nc,fn))
