import warnings; warnings.filterwarnings("ignore")
from soundevent import data
import math, json
for v in [float("nan"), float("inf"), -0.0, True, "1.5", 1]:
    try:
        g=data.TimeStamp(coordinates=v); print(repr(v),"->",g, g.model_dump_json())
        try: print("   reval:", data.geometry_validate(g.model_dump_json()))
        except Exception as e: print("   reval EXC", str(e)[:80])
    except Exception as e: print(repr(v),"EXC",type(e).__name__)
for coords in [[1,2,0,1],[0,5e6,1,0],[0,5000001,1,2],[0,0,0,0],(0,1,2,3)]:
    try: print(coords, data.BoundingBox(coordinates=coords))
    except Exception as e: print(coords,"EXC")
class O: 
    def __init__(s,t,c): s.type=t; s.coordinates=c
for mode,obj in [("attributes",O("LineString",[[2,1],[1,2]])),("dict",{"type":"LineString","coordinates":[[2,1],[1,2]]}),("json",'{"type":"LineString","coordinates":[[2,1],[1,2]]}'),
   ("attributes",O("MultiLineString",[[[2,1],[1,2]]])),("dict",{"type":"Point","coordinates":[1,2,3]}),("dict",{"type":"Point","coordinates":[[1,2]]}),("dict",{"type":"LineString","coordinates":[[1,2,3],[2,3,4]]}),
   ("dict",{"type":"Circle","coordinates":[1,2]}), ("dict",{"type":"TimeInterval","coordinates":[1,2,3]}),("dict",{"type":"TimeInterval","coordinates":[2,1]}),("dict",{"type":"MultiLineString","coordinates":[[[1,1],[1,2]]]}),
   ("dict",{"type":"Polygon","coordinates":[[[1,1],[1,2]]]}),("dict",{"type":"Polygon","coordinates":[]}),("dict",{"type":"BoundingBox","coordinates":[1,2,0,1], "extra":1})]:
    try: r=data.geometry_validate(obj,mode=mode); print(mode, type(r).__name__, r.coordinates)
    except Exception as e: print(mode, str(obj)[:40], "EXC", type(e).__name__, str(e)[:70])
# direct constructor with wrong-arity inner point
for cls,c in [(data.LineString,[[1,2,3],[2,3,4]]),(data.MultiPoint,[[1]]),(data.Polygon,[[[0,0],[1,1],[1]]])]:
    try: print(cls(coordinates=c))
    except Exception as e: print(cls.__name__,"EXC",type(e).__name__, str(e)[:100].replace("\n"," "))
print(data.BoundingBox(coordinates=[1,2,0,1]).model_dump_json())
print(data.TimeStamp(type="TimeStamp",coordinates=1) , )
try: print(data.TimeStamp(type="Point",coordinates=1))
except Exception as e: print("EXC type mismatch")
