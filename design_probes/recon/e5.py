import warnings; warnings.filterwarnings("ignore")
from soundevent import data
from soundevent.evaluation import sound_event_detection, sound_event_classification, clip_classification, clip_multilabel_classification
rec = data.Recording(path="/a/b.wav", duration=100, channels=1, samplerate=8000)
clip = data.Clip(recording=rec,start_time=0,end_time=10)
tags=[data.Tag(term=data.term_from_key("sp"), value=v) for v in "abc"]
def se(g): return data.SoundEvent(recording=rec, geometry=g)
bb=lambda t: data.BoundingBox(coordinates=[t,100,t+1,200])
# detection: far apart
ann = data.ClipAnnotation(clip=clip, sound_events=[data.SoundEventAnnotation(sound_event=se(bb(0)), tags=[tags[0]])])
pred = data.ClipPrediction(clip=clip, sound_events=[data.SoundEventPrediction(sound_event=se(bb(5)), tags=[data.PredictedTag(tag=tags[0],score=.9)])])
ev = sound_event_detection([pred],[ann],tags)
for m in ev.clip_evaluations[0].matches: print("det far:", m.source is not None, m.target is not None, m.affinity, m.score)
# detection with partially overlapping: affinity reported
pred2 = data.ClipPrediction(clip=clip, sound_events=[data.SoundEventPrediction(sound_event=se(bb(0.5)), tags=[data.PredictedTag(tag=tags[0],score=.9)])])
ev = sound_event_detection([pred2],[ann],tags)
for m in ev.clip_evaluations[0].matches: print("det half:", m.affinity, m.score)
# geometry-less
try:
    ann3 = data.ClipAnnotation(clip=clip, sound_events=[data.SoundEventAnnotation(sound_event=se(None), tags=[tags[1]]), data.SoundEventAnnotation(sound_event=se(bb(0)), tags=[tags[0]])])
    ev = sound_event_detection([pred2],[ann3],tags)
    for m in ev.clip_evaluations[0].matches: print("det geomless:", m.target.tags[0].value if m.target else None, m.affinity, m.score)
except Exception as e: print("det geomless EXC", type(e).__name__, str(e)[:200])
# empty clip detection
try:
    ev = sound_event_detection([data.ClipPrediction(clip=clip)],[data.ClipAnnotation(clip=clip)],tags); print("det empty", ev.score, [ (m.term.label,m.value) for m in ev.metrics])
except Exception as e: print("det empty EXC", type(e).__name__, str(e)[:300])
# sound_event_classification
s=se(bb(0))
annc = data.ClipAnnotation(clip=clip, sound_events=[data.SoundEventAnnotation(sound_event=s, tags=[tags[0]])])
predc = data.ClipPrediction(clip=clip, sound_events=[data.SoundEventPrediction(sound_event=s, tags=[data.PredictedTag(tag=tags[1],score=.9)])])
ev = sound_event_classification([predc],[annc],tags); print("sec", [(m.term.label,m.value) for m in ev.metrics], ev.score)
try:
    clip2 = data.Clip(recording=rec,start_time=10,end_time=20)
    ev = sound_event_classification([predc, data.ClipPrediction(clip=clip2)],[annc, data.ClipAnnotation(clip=clip2)],tags); print("sec empty clip", ev.score, [c.score for c in ev.clip_evaluations])
except Exception as e: print("sec empty EXC", type(e).__name__, str(e)[:300])
