import warnings; warnings.filterwarnings("ignore")
from soundevent import data
from soundevent.operations import segment_clip
rec = data.Recording(path="a.wav", duration=100, channels=1, samplerate=8000)
clip = data.Clip(recording=rec, start_time=0, end_time=10)
for dur, hop, inc in [(3,3,True),(3,3,False),(1,4,False),(1,4,True),(3,2,True),(2.5,2.5,True),(4,3,True)]:
    print(dur,hop,inc,[(c.start_time,c.end_time) for c in segment_clip(clip,dur,hop,inc)])
