import warnings; warnings.filterwarnings("ignore")
import json, tempfile, os
from soundevent import data, io
rec = data.Recording(path="/a/b.wav", duration=100, channels=1, samplerate=8000, license="CC0")
d = tempfile.mkdtemp()
rs = data.RecordingSet(recordings=[rec])
io.save(rs, d+"/rs.json"); l = io.load(d+"/rs.json")
print("license roundtrip:", l.recordings[0].license, l == rs)
# prediction set with sequence predictions
se = data.SoundEvent(recording=rec, geometry=data.TimeStamp(coordinates=1))
seq = data.Sequence(sound_events=[se])
t = data.Tag(term=data.term_from_key("sp"), value="x")
cp = data.ClipPrediction(clip=data.Clip(recording=rec,start_time=0,end_time=1),
    sound_events=[data.SoundEventPrediction(sound_event=se, score=.5, tags=[data.PredictedTag(tag=t,score=.3)])],
    sequences=[data.SequencePrediction(sequence=seq, score=.5)])
rec2 = data.Recording(path="/a/b.wav", duration=100, channels=1, samplerate=8000)
cp2 = cp.model_copy(deep=True)
ps = data.PredictionSet(clip_predictions=[cp])
io.save(ps, d+"/ps.json"); l = io.load(d+"/ps.json")
print("ps roundtrip eq:", l == ps, len(l.clip_predictions[0].sequences))
doc = json.load(open(d+"/ps.json"))["data"]; print(sorted(doc.keys()))
mr = data.ModelRun(name="m", clip_predictions=[cp])
io.save(mr, d+"/mr.json"); l = io.load(d+"/mr.json")
print("mr roundtrip eq:", l == mr)
# evaluation set with evaluation-only tag
t2 = data.Tag(term=data.term_from_key("sp"), value="only-eval")
ca = data.ClipAnnotation(clip=cp.clip, tags=[t])
es = data.EvaluationSet(name="e", clip_annotations=[ca], evaluation_tags=[t, t2])
io.save(es, d+"/es.json"); l = io.load(d+"/es.json")
print("es roundtrip eq:", l == es, [x.value for x in l.evaluation_tags])
es0 = data.EvaluationSet(name="e", clip_annotations=[], evaluation_tags=[t2])
io.save(es0, d+"/es0.json"); l = io.load(d+"/es0.json"); print("es0:", l==es0, l.evaluation_tags, open(d+"/es0.json").read())
ap = data.AnnotationProject(name="p", clip_annotations=[ca], annotation_tags=[t2], tasks=[data.AnnotationTask(clip=cp.clip, status_badges=[data.StatusBadge(state="completed", owner=data.User(name="u"))])])
io.save(ap, d+"/ap.json"); l = io.load(d+"/ap.json"); print("ap:", l==ap)
