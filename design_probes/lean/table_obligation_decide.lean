-- feasibility probes for the kinds of obligations DESIGN.md will promise
structure MetricRow where
  termLabel : String
  termName : String
  fn : String
deriving DecidableEq, Repr

def expected : List (String × String) :=
  [("balanced_accuracy","Balanced Accuracy"),("accuracy","Accuracy"),("top_3_accuracy","Top 3 Accuracy"),
   ("mean_average_precision","Mean Average Precision"),("true_class_probability","True Class Probability"),
   ("jaccard","Jaccard Index"),("average_precision","Average Precision")]

def TableOk (t : List MetricRow) : Bool :=
  (t.map (·.termLabel)).Nodup && t.all (fun r => expected.lookup r.fn == some r.termLabel)

def sec : List MetricRow := [⟨"Balanced Accuracy","x","balanced_accuracy"⟩,⟨"Accuracy","x","accuracy"⟩,⟨"Top 3 Accuracy","x","top_3_accuracy"⟩]
theorem sec_ok : TableOk sec = true := by decide
def bad : List MetricRow := [⟨"Balanced Accuracy","x","balanced_accuracy"⟩,⟨"Balanced Accuracy","x","accuracy"⟩]
example : TableOk bad = false := by decide

-- segment tiling lemma flavour
def starts (s hop : Rat) : Nat → List Rat
  | 0 => []
  | n+1 => starts s hop n ++ [s + n * hop]
theorem starts_len (s hop : Rat) (n : Nat) : (starts s hop n).length = n := by
  induction n with
  | zero => rfl
  | succ n ih => simp [starts, ih]
-- get_coord_index flavour
def idx (cs : List Rat) (v : Rat) : Nat := (cs.filter (· ≤ v)).length - 1
#eval idx [0, 1/2, 1, 3/2] (5/4)
#print axioms sec_ok
