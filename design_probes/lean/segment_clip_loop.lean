-- prototype: segment_clip loop model and its characterisation
namespace S

/-- the loop of `segment_clip`, `n` iterations left, current index `i` -/
def loop (s e dur hop : Rat) (incl : Bool) : Nat → Nat → List (Rat × Rat)
  | 0, _ => []
  | n+1, i =>
    let a := s + i * hop
    if a ≥ e then []
    else if a + dur > e ∧ incl = false then []
    else (a, min (a + dur) e) :: loop s e dur hop incl n (i+1)

def segPinned (s e dur hop : Rat) (incl : Bool) : List (Rat × Rat) :=
  loop s e dur hop incl ((e - s) / hop).floor.toNat 0
def segFixed (s e dur hop : Rat) (incl : Bool) : List (Rat × Rat) :=
  loop s e dur hop incl ((e - s) / hop).ceil.toNat 0

def Window (s e dur hop : Rat) (incl : Bool) (i : Nat) (p : Rat × Rat) : Prop :=
  p.1 = s + i * hop ∧ p.1 < e ∧ (incl = true ∨ p.1 + dur ≤ e) ∧ p.2 = min (p.1 + dur) e

theorem mono (s hop : Rat) (hh : 0 < hop) {i j : Nat} (h : i ≤ j) : s + i * hop ≤ s + j * hop := by
  have : (i : Rat) ≤ (j : Rat) := by exact_mod_cast h
  have := Rat.mul_le_mul_of_nonneg_right this (Rat.le_of_lt hh)
  grind

theorem mem_loop (s e dur hop : Rat) (incl : Bool) (hh : 0 < hop) :
    ∀ (n i : Nat) (p : Rat × Rat),
      p ∈ loop s e dur hop incl n i ↔ ∃ j, i ≤ j ∧ j < i + n ∧ Window s e dur hop incl j p := by
  intro n
  induction n with
  | zero => intro i p; simp [loop]; intro j h1 h2; omega
  | succ n ih =>
    intro i p
    simp only [loop]
    by_cases h1 : s + i * hop ≥ e
    · simp only [h1, if_true, List.not_mem_nil, false_iff]
      rintro ⟨j, hij, _, hw⟩
      have := mono s hop hh hij
      have h2 := hw.2.1; rw [hw.1] at h2
      grind
    · by_cases h2 : s + ↑i * hop + dur > e ∧ incl = false
      · simp only [h1, if_false, h2, and_self, if_true, List.not_mem_nil, false_iff]
        rintro ⟨j, hij, _, hw⟩
        have := mono s hop hh hij
        rcases hw.2.2.1 with h | h
        · have h3 := h2.2; grind
        · rw [hw.1] at h; grind
      · simp only [h1, if_false, h2, List.mem_cons, ih]
        constructor
        · rintro (rfl | ⟨j, hj1, hj2, hw⟩)
          · refine ⟨i, Nat.le_refl _, by omega, rfl, ?_, ?_, rfl⟩
            · show s + ↑i * hop < e
              exact Rat.not_le.1 h1
            · show incl = true ∨ s + ↑i * hop + dur ≤ e
              cases incl
              · right; simp at h2; exact Rat.not_lt.1 h2
              · left; rfl
          · exact ⟨j, by omega, by omega, hw⟩
        · rintro ⟨j, hj1, hj2, hw⟩
          by_cases hji : j = i
          · subst hji; left
            obtain ⟨a1, _, _, a4⟩ := hw
            ext <;> simp [a1, a4]
          · right; exact ⟨j, by omega, by omega, hw⟩

/-- with the repaired bound every window that starts inside the clip is within the loop range -/
theorem fixed_mem (s e dur hop : Rat) (incl : Bool) (hh : 0 < hop) (p : Rat × Rat) :
    p ∈ segFixed s e dur hop incl ↔ ∃ j : Nat, Window s e dur hop incl j p := by
  unfold segFixed
  rw [mem_loop s e dur hop incl hh]
  constructor
  · rintro ⟨j, _, _, hw⟩; exact ⟨j, hw⟩
  · rintro ⟨j, hw⟩
    refine ⟨j, Nat.zero_le _, ?_, hw⟩
    have h2 := hw.2.1; rw [hw.1] at h2
    -- j * hop < e - s  ⇒  j < (e - s)/hop ≤ ceil
    have hlt : (j : Rat) < (e - s) / hop := by
      rw [Rat.lt_div_iff hh]; grind
    have : ((j : Int) : Rat) < (((e - s) / hop).ceil : Rat) := by
      have h3 := @Rat.le_ceil ((e - s) / hop)
      have h4 : ((j : Int) : Rat) = (j : Rat) := by norm_cast
      rw [h4]
      grind
    have : (j : Int) < ((e - s) / hop).ceil := by exact_mod_cast this
    omega

-- the pinned bound loses windows: 10 s clip, 3 s windows, hop 3, incomplete allowed
example : (9, 10) ∉ segPinned 0 10 3 3 true ∧ Window 0 10 3 3 true 3 (9, 10) := by
  constructor
  · decide +kernel
  · refine ⟨by decide +kernel, by decide +kernel, .inl rfl, by decide +kernel⟩
example : (9, 10) ∈ segFixed 0 10 3 3 true := by decide +kernel
end S
#print axioms S.fixed_mem
