-- prototype: brute-force optimum of the assignment problem and its upper-bound theorem
namespace M
abbrev Mat := Nat → Nat → Rat

def value (aff : Mat) (ps : List (Nat × Nat)) : Rat := (ps.map fun p => aff p.1 p.2).sum

/-- max over a list of candidates, at least `base` -/
def maxOver (base : Rat) (xs : List Rat) : Rat := xs.foldl max base

theorem le_maxOver_base (base : Rat) (xs : List Rat) : base ≤ maxOver base xs := by
  induction xs generalizing base with
  | nil => simp [maxOver]
  | cons x xs ih =>
    simp only [maxOver, List.foldl_cons]
    exact Rat.le_trans (by grind) (ih (max base x))

theorem le_maxOver_mem (base : Rat) (xs : List Rat) (x : Rat) (h : x ∈ xs) : x ≤ maxOver base xs := by
  induction xs generalizing base with
  | nil => cases h
  | cons y ys ih =>
    simp only [maxOver, List.foldl_cons]
    rcases List.mem_cons.1 h with h | h
    · subst h; exact Rat.le_trans (by grind) (le_maxOver_base (max base x) ys)
    · exact ih (max base y) h

/-- best value using rows `< k` and columns `< m` not in `used` -/
def best (aff : Mat) (m : Nat) : Nat → List Nat → Rat
  | 0, _ => 0
  | k+1, used =>
    maxOver (best aff m k used)
      (((List.range m).filter (fun j => !used.contains j)).map
        (fun j => aff k j + best aff m k (j :: used)))

structure Matching (k m : Nat) (used : List Nat) (ps : List (Nat × Nat)) : Prop where
  rows_lt : ∀ p ∈ ps, p.1 < k
  cols_lt : ∀ p ∈ ps, p.2 < m
  cols_free : ∀ p ∈ ps, p.2 ∉ used
  rows_nodup : (ps.map Prod.fst).Nodup
  cols_nodup : (ps.map Prod.snd).Nodup

theorem sum_perm {xs ys : List Rat} (h : xs.Perm ys) : xs.sum = ys.sum := by
  induction h with
  | nil => rfl
  | cons x _ ih => simp [ih]
  | swap x y l => simp only [List.sum_cons]; grind
  | trans _ _ ih1 ih2 => exact ih1.trans ih2

theorem value_perm (aff : Mat) {ps qs : List (Nat × Nat)} (h : ps.Perm qs) : value aff ps = value aff qs := by
  unfold value
  exact sum_perm (h.map _)

theorem best_upper (aff : Mat) (m : Nat) : ∀ (k : Nat) (used : List Nat) (ps : List (Nat × Nat)),
    Matching k m used ps → value aff ps ≤ best aff m k used := by
  intro k
  induction k with
  | zero =>
    intro used ps h
    have : ps = [] := by
      cases ps with
      | nil => rfl
      | cons p ps => exact absurd (h.rows_lt p (by simp)) (by omega)
    subst this; simp [value, best]
  | succ k ih =>
    intro used ps h
    by_cases hk : ∃ p ∈ ps, p.1 = k
    · obtain ⟨p, hp, hpk⟩ := hk
      -- split off p
      obtain ⟨qs, hperm⟩ : ∃ qs, ps.Perm (p :: qs) := ⟨ps.erase p, List.perm_cons_erase hp⟩
      have hval : value aff ps = aff p.1 p.2 + value aff qs := by
        rw [value_perm aff hperm]; simp [value]
      have hrows : ((p :: qs).map Prod.fst).Nodup := (hperm.map _).nodup_iff.1 h.rows_nodup
      have hcols : ((p :: qs).map Prod.snd).Nodup := (hperm.map _).nodup_iff.1 h.cols_nodup
      have hq : Matching k m (p.2 :: used) qs := by
        refine ⟨?_, ?_, ?_, ?_, ?_⟩
        · intro q hq
          have h1 := h.rows_lt q (hperm.mem_iff.2 (List.mem_cons_of_mem _ hq))
          have h2 : q.1 ≠ p.1 := by
            intro e
            simp only [List.map_cons, List.nodup_cons, List.mem_map] at hrows
            exact hrows.1 ⟨q, hq, e⟩
          omega
        · intro q hq; exact h.cols_lt q (hperm.mem_iff.2 (List.mem_cons_of_mem _ hq))
        · intro q hq
          have h1 := h.cols_free q (hperm.mem_iff.2 (List.mem_cons_of_mem _ hq))
          have h2 : q.2 ≠ p.2 := by
            intro e
            simp only [List.map_cons, List.nodup_cons, List.mem_map] at hcols
            exact hcols.1 ⟨q, hq, e⟩
          simp [h1, h2]
        · simp only [List.map_cons, List.nodup_cons] at hrows; exact hrows.2
        · simp only [List.map_cons, List.nodup_cons] at hcols; exact hcols.2
      have hrec := ih (p.2 :: used) qs hq
      have hmem : aff k p.2 + best aff m k (p.2 :: used) ∈
          (((List.range m).filter (fun j => !used.contains j)).map
            (fun j => aff k j + best aff m k (j :: used))) := by
        refine List.mem_map.2 ⟨p.2, ?_, rfl⟩
        simp [List.mem_filter, h.cols_lt p hp, h.cols_free p hp]
      have := le_maxOver_mem (best aff m k used) _ _ hmem
      rw [hval, hpk]
      simp only [best]
      grind
    · have hq : Matching k m used ps := by
        refine ⟨?_, h.cols_lt, h.cols_free, h.rows_nodup, h.cols_nodup⟩
        intro p hp
        have := h.rows_lt p hp
        have : p.1 ≠ k := fun e => hk ⟨p, hp, e⟩
        omega
      have := ih used ps hq
      simp only [best]
      exact Rat.le_trans this (le_maxOver_base _ _)
end M
#print axioms M.best_upper
