import Extracted
namespace Model
def thrOverlap (s1 e1 s2 e2 thr : Rat) : Bool := decide (min e1 e2 - max s1 s2 ≥ thr)
def overlap_none (s1 e1 s2 e2 : Rat) : Option Bool := some (thrOverlap s1 e1 s2 e2 0)
def overlap_abs (s1 e1 s2 e2 a : Rat) : Option Bool := some (thrOverlap s1 e1 s2 e2 a)
def overlap_rel (s1 e1 s2 e2 r : Rat) : Option Bool :=
  if r < 0 ∨ r > 1 then none else some (thrOverlap s1 e1 s2 e2 (r * min (e1 - s1) (e2 - s2)))
end Model

theorem tie_none (s1 e1 s2 e2 a r : Rat) : Extracted.overlap_none s1 e1 s2 e2 a r = Model.overlap_none s1 e1 s2 e2 := by
  unfold Extracted.overlap_none Model.overlap_none Model.thrOverlap
  grind
theorem tie_abs (s1 e1 s2 e2 a r : Rat) : Extracted.overlap_abs s1 e1 s2 e2 a r = Model.overlap_abs s1 e1 s2 e2 a := by
  unfold Extracted.overlap_abs Model.overlap_abs Model.thrOverlap
  grind
theorem tie_rel (s1 e1 s2 e2 a r : Rat) : Extracted.overlap_rel s1 e1 s2 e2 a r = Model.overlap_rel s1 e1 s2 e2 r := by
  unfold Extracted.overlap_rel Model.overlap_rel Model.thrOverlap
  grind
theorem tie_both (s1 e1 s2 e2 a r : Rat) : Extracted.overlap_both s1 e1 s2 e2 a r = none := by
  unfold Extracted.overlap_both; rfl
#print axioms tie_rel
