-- prototype: miniature AOEF round trip (users shared by uuid; notes refer to users; recordings own users and notes)
namespace A
abbrev UUID := String

structure User where
  uuid : UUID
  name : Option String
deriving DecidableEq, Repr

structure Note where
  uuid : UUID
  message : String
  createdBy : Option User
deriving DecidableEq, Repr

structure Recording where
  uuid : UUID
  path : String
  owners : List User
  notes : List Note
deriving DecidableEq, Repr

structure RecordingSet where
  uuid : UUID
  recordings : List Recording
deriving DecidableEq, Repr

-- document side
structure NoteObj where
  uuid : UUID
  message : String
  createdBy : Option UUID
deriving DecidableEq, Repr

structure RecObj where
  uuid : UUID
  path : String
  owners : List UUID
  notes : List NoteObj
deriving DecidableEq, Repr

structure Doc where
  uuid : UUID
  users : List User      -- UserObject has the same fields as User
  recordings : List RecObj
deriving DecidableEq, Repr

/-- keyed store with first-wins semantics (what `DataAdapter.to_aoef/to_soundevent` implement) -/
def insertNew (store : List User) (u : User) : List User :=
  if store.any (fun v => v.uuid == u.uuid) then store else store ++ [u]

def dedup (us : List User) : List User := us.foldl insertNew []

def lookup (store : List User) (k : UUID) : Option User := store.find? (fun v => v.uuid == k)

def noteUsers (n : Note) : List User := n.createdBy.toList
def recUsers (r : Recording) : List User := r.notes.flatMap noteUsers ++ r.owners   -- adapter visits notes first, then owners
def allUsers (c : RecordingSet) : List User := c.recordings.flatMap recUsers

def encNote (n : Note) : NoteObj := ⟨n.uuid, n.message, n.createdBy.map (·.uuid)⟩
def encRec (r : Recording) : RecObj := ⟨r.uuid, r.path, r.owners.map (·.uuid), r.notes.map encNote⟩
def save (c : RecordingSet) : Doc := ⟨c.uuid, dedup (allUsers c), c.recordings.map encRec⟩

def decNote (st : List User) (n : NoteObj) : Note :=
  ⟨n.uuid, n.message, n.createdBy.bind (lookup st)⟩        -- unknown id ⇒ None (lenient)
def decRec (st : List User) (r : RecObj) : Recording :=
  ⟨r.uuid, r.path, r.owners.filterMap (lookup st), r.notes.map (decNote st)⟩   -- unknown id ⇒ skipped
def load (d : Doc) : RecordingSet :=
  let st := dedup d.users
  ⟨d.uuid, d.recordings.map (decRec st)⟩

/-- uuid-coherence: two reachable users with the same uuid are the same user -/
def Coherent (c : RecordingSet) : Prop :=
  ∀ u ∈ allUsers c, ∀ v ∈ allUsers c, u.uuid = v.uuid → u = v

-- generic store lemmas ------------------------------------------------------
theorem mem_insertNew {st : List User} {u v : User} : v ∈ insertNew st u → v ∈ st ∨ v = u := by
  unfold insertNew; split <;> simp_all

theorem insertNew_sub (st : List User) (u : User) : ∀ v ∈ st, v ∈ insertNew st u := by
  unfold insertNew; split <;> simp_all

theorem key_in_insertNew (st : List User) (u : User) : ∃ v ∈ insertNew st u, v.uuid = u.uuid := by
  unfold insertNew
  split
  next h => simp only [List.any_eq_true, beq_iff_eq] at h; exact h
  next => exact ⟨u, by simp, rfl⟩

theorem foldl_sub (us : List User) : ∀ (st : List User), ∀ v ∈ st, v ∈ us.foldl insertNew st := by
  induction us with
  | nil => intro st v h; simpa using h
  | cons u us ih => intro st v h; exact ih _ v (insertNew_sub st u v h)

theorem foldl_mem (us : List User) : ∀ (st : List User) (v : User), v ∈ us.foldl insertNew st → v ∈ st ∨ v ∈ us := by
  induction us with
  | nil => intro st v h; left; simpa using h
  | cons u us ih =>
    intro st v h
    rcases ih _ v h with h | h
    · rcases mem_insertNew h with h | h
      · exact .inl h
      · exact .inr (by simp [h])
    · exact .inr (by simp [h])

theorem foldl_has_key (us : List User) : ∀ (st : List User), ∀ u ∈ us, ∃ v ∈ us.foldl insertNew st, v.uuid = u.uuid := by
  induction us with
  | nil => intro st u h; cases h
  | cons w us ih =>
    intro st u h
    rcases List.mem_cons.1 h with h | h
    · subst h
      obtain ⟨v, hv, hk⟩ := key_in_insertNew st u
      exact ⟨v, foldl_sub us _ v hv, hk⟩
    · exact ih _ u h

theorem dedup_sub (us : List User) : ∀ v ∈ dedup us, v ∈ us := by
  intro v h; rcases foldl_mem us [] v h with h | h
  · cases h
  · exact h

/-- the central lemma: looking up the key of a reachable user in the de-duplicated store returns that user -/
theorem lookup_dedup (us : List User) (coh : ∀ u ∈ us, ∀ v ∈ us, u.uuid = v.uuid → u = v)
    (u : User) (hu : u ∈ us) : lookup (dedup us) u.uuid = some u := by
  obtain ⟨v, hv, hk⟩ := foldl_has_key us [] u hu
  unfold lookup
  cases hf : (dedup us).find? (fun v => v.uuid == u.uuid) with
  | none =>
    have := List.find?_eq_none.1 hf v hv
    simp [hk] at this
  | some w =>
    have hw := List.mem_of_find?_eq_some hf
    have hwk : w.uuid = u.uuid := by simpa using List.find?_some hf
    exact congrArg some (coh w (dedup_sub us w hw) u hu hwk)

theorem filterMap_lookup (st : List User) : ∀ (os : List User), (∀ u ∈ os, lookup st u.uuid = some u) →
    (os.map (·.uuid)).filterMap (lookup st) = os := by
  intro os
  induction os with
  | nil => intro _; rfl
  | cons o os ih =>
    intro h
    simp only [List.map_cons, List.filterMap_cons, h o (by simp)]
    congr 1
    exact ih (fun u hu => h u (by simp [hu]))

theorem dedup_idem_lookup (us : List User) (coh : ∀ u ∈ us, ∀ v ∈ us, u.uuid = v.uuid → u = v)
    (u : User) (hu : u ∈ us) : lookup (dedup (dedup us)) u.uuid = some u := by
  -- loading re-registers the document's user list through the same first-wins store
  have hsub := dedup_sub us
  have coh' : ∀ a ∈ dedup us, ∀ b ∈ dedup us, a.uuid = b.uuid → a = b :=
    fun a ha b hb h => coh a (hsub a ha) b (hsub b hb) h
  obtain ⟨v, hv, hk⟩ := foldl_has_key us [] u hu
  have hvu : v = u := coh v (hsub v hv) u hu hk
  subst hvu
  exact lookup_dedup (dedup us) coh' v hv

-- round trip ---------------------------------------------------------------------
theorem roundtrip (c : RecordingSet) (coh : Coherent c) : load (save c) = c := by
  obtain ⟨cid, recs⟩ := c
  simp only [load, save, RecordingSet.mk.injEq, true_and, List.map_map]
  have key : ∀ u ∈ allUsers ⟨cid, recs⟩, lookup (dedup (dedup (allUsers ⟨cid, recs⟩))) u.uuid = some u :=
    fun u hu => dedup_idem_lookup _ coh u hu
  generalize dedup (dedup (allUsers ⟨cid, recs⟩)) = st at key
  rw [List.map_congr_left (g := id)]
  · simp
  intro r hr
  have hsub : ∀ u ∈ recUsers r, u ∈ allUsers ⟨cid, recs⟩ := by
    intro u hu; simp only [allUsers, List.mem_flatMap]; exact ⟨r, hr, hu⟩
  obtain ⟨rid, path, owners, notes⟩ := r
  simp only [Function.comp, decRec, encRec, id, Recording.mk.injEq, true_and, List.map_map]
  constructor
  · -- owners
    exact filterMap_lookup st owners (fun u hu => key u (hsub u (by simp [recUsers, hu])))
  · -- notes
    rw [List.map_congr_left (g := id)]
    · simp
    intro n hn
    obtain ⟨nid, msg, cb⟩ := n
    simp only [Function.comp, decNote, encNote, id, Note.mk.injEq, true_and]
    cases cb with
    | none => rfl
    | some u =>
      have : u ∈ recUsers ⟨rid, path, owners, notes⟩ := by
        simp only [recUsers, List.mem_append, List.mem_flatMap]
        exact .inl ⟨⟨nid, msg, some u⟩, hn, by simp [noteUsers]⟩
      simp [key u (hsub u this)]

-- non-vacuity: a set in which one user is shared as owner and note author
def alice : User := ⟨"u1", some "alice"⟩
def rs : RecordingSet := ⟨"s", [⟨"r1", "a.wav", [alice], [⟨"n1", "hi", some alice⟩, ⟨"n2", "anon", none⟩]⟩, ⟨"r2", "b.wav", [alice], []⟩]⟩
example : load (save rs) = rs := by decide
end A
#print axioms A.roundtrip
